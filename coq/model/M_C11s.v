(* C11 -- the spectral tensor functions as TensorMath.symmetric_matrix_function builds them (no proofs here):
     lam, V = eigen_sym33_unit(A);  return V @ np.diag(func(lam)) @ V.T
   over an eigen-solver `eigh : mat -> (eigenvalues, matrix whose COLUMNS are the eigenvectors)` that stays a parameter.
   lss_spec is TensorMath.log_sqrt_symm (= 0.5 * log_symm(A)); expm_spec is the exponential of a symmetric matrix in the same
   form (TensorMath.exp_symm); jax.scipy.linalg.expm, which the viscous update calls, is tied to it numerically by the harness
   (stream `spectral`).  minv is np.linalg.inv as the translator expands it (adjugate / determinant). *)
From Coq Require Import ZArith QArith List.
From OV.base Require Import Num.
From OV.model Require Import M_C08.
Import ListNotations.

Section M.
  Context {T : Type} {NT : Num T}.
  Notation mat := (mat T).

  Definition eig : Type := ((T * T * T) * mat)%type.
  Definition mdiag (a b c : T) : mat := mk a nzero nzero nzero b nzero nzero nzero c.
  Definition spectral (eigh : mat -> eig) (f : T -> T) (A : mat) : mat :=
    let '((w0, w1, w2), V) := eigh A in mmul (mmul V (mdiag (f w0) (f w1) (f w2))) (mtr V).
  Definition lss_spec (eigh : mat -> eig) (A : mat) : mat := mscal nhalf (spectral eigh nln A).
  Definition expm_spec (eigh : mat -> eig) (A : mat) : mat := spectral eigh nexp A.
  (* np.linalg.inv of a 3x3 matrix as the translator expands it inside the kernels: adjugate entries divided by the determinant *)
  Definition minv (A : mat) : mat :=
    let d := mdet A in
    mk (ndiv (nsub (nmul (m11 A) (m22 A)) (nmul (m12 A) (m21 A))) d) (ndiv (nsub (nmul (m02 A) (m21 A)) (nmul (m01 A) (m22 A))) d)
       (ndiv (nsub (nmul (m01 A) (m12 A)) (nmul (m02 A) (m11 A))) d)
       (ndiv (nsub (nmul (m12 A) (m20 A)) (nmul (m10 A) (m22 A))) d) (ndiv (nsub (nmul (m00 A) (m22 A)) (nmul (m02 A) (m20 A))) d)
       (ndiv (nsub (nmul (m02 A) (m10 A)) (nmul (m00 A) (m12 A))) d)
       (ndiv (nsub (nmul (m10 A) (m21 A)) (nmul (m11 A) (m20 A))) d) (ndiv (nsub (nmul (m01 A) (m20 A)) (nmul (m00 A) (m21 A))) d)
       (ndiv (nsub (nmul (m00 A) (m11 A)) (nmul (m01 A) (m10 A))) d).
End M.
