(* C02: the analytic side of "assembled stiffness = Hessian of the total energy".  Definitions only.
   The total energy is a sum over the elements of an element energy evaluated on the element's LOCAL nodal field
   (Mechanics.compute_element_stiffness_from_global_fields:  elDisp = U[elConn,:]  handed to
    element_hess_func = hessian(FunctionSpace.integrate_element_from_local_field);
    FunctionSpace.integrate_over_block(slice(None)) = sum_e integrate_element(U[conns[e]], ...)),
   and the global field is the affine image  U = create_field(Uu, Ubc)  of the unknowns (M_C14_Dof.create_field). *)
From Coq Require Import ZArith List Bool Arith Reals.
From OV.model Require Import M_C14_Dof M_C02_Assembly.
Import ListNotations.

Section Local.
  Context {V : Type} (vzero : V) (vadd : V -> V -> V).
  Variable dim : nat.
  (* U[elConn, :].ravel() : the element's nodal values, node-major / component-minor -- the order of el_dofs *)
  Definition gather_local (U : list V) (eNodes : list nat) : list V := map (fun d => nth d U vzero) (el_dofs dim eNodes).
  (* sum_e E_e(U[conns[e], :])   (Es : one energy function of the flat local field per element) *)
  Definition total_energy (conns : list (list nat)) (Es : list (list V -> V)) (U : list V) : V :=
    fold_right vadd vzero (map (fun eE => snd eE (gather_local U (fst eE))) (combine conns Es)).
End Local.

Local Open Scope R_scope.

(* finite sums of reals over an index list *)
Definition Rsum {A} (f : A -> R) (l : list A) : R := fold_right Rplus 0 (map f l).

(* the energy as a function of the unknowns:  Uu |-> sum_e E_e(G_e (create_field Uu Ubc)) *)
Definition reduced_energy (isBc : list bool) (dim : nat) (conns : list (list nat)) (Es : list (list R -> R)) (Ubc Uu : list R) : R :=
  total_energy 0 Rplus dim conns Es (create_field isBc 0 Uu Ubc).

(* x + t a  (componentwise; the two lists have equal length wherever this is used) *)
Definition lin (x : list R) (t : R) (a : list R) : list R := map (fun p => fst p + t * snd p) (combine x a).

(* a^T K b over the indices 0..n-1 *)
Definition bil (n : nat) (K : nat -> nat -> R) (a b : list R) : R :=
  Rsum (fun p => Rsum (fun q => nth p a 0 * K p q * nth q b 0) (seq 0 n)) (seq 0 n).

(* a quadratic element energy  c + g.x + 1/2 x^T K x  on n local dofs *)
Definition quad_energy (n : nat) (c : R) (g : nat -> R) (K : nat -> nat -> R) (x : list R) : R :=
  c + Rsum (fun p => g p * nth p x 0) (seq 0 n) + / 2 * bil n K x x.

(* ---------- correspondence case (integers): U[conn,:].ravel() for every element, the field create_field(Uu,Ubc) and the
   affine identity create_field(Uu + t v, Ubc) = create_field(Uu, Ubc) + t create_field(v, 0) ---------- *)
Definition linZ (x : list Z) (t : Z) (a : list Z) : list Z := map (fun p => (fst p + t * snd p)%Z) (combine x a).
Definition run_local_case (nNodes dim : Z) (ebcs : list (list Z * Z)) (conns : list (list Z)) (Uu Ubc v : list Z) (t : Z) : list Z :=
  let nN := Z.to_nat nNodes in
  let dm := Z.to_nat dim in
  let isBc := mk_isBc nN dm (map (fun e => (nl (fst e), Z.to_nat (snd e))) ebcs) in
  let U := create_field isBc 0%Z Uu Ubc in
  pack [ concat (map (fun en => gather_local 0%Z dm U (nl en)) conns);
         create_field isBc 0%Z (linZ Uu t v) Ubc;
         linZ U t (create_field isBc 0%Z v (repeat 0%Z (length Ubc))) ].
