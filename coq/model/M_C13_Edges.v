(* C13 -- optimism/Mesh.py create_edges: unique-edge detection by sorted vertex pairs (np.unique with return_index,
   rows in lexicographic order, index of the first occurrence), left element/side from the stacked-face index,
   right element/side by searching the flipped pair (first match), None (the code's -1, -1) otherwise. *)
From Coq Require Import List Arith Bool.
Import ListNotations.

Definition face := (nat * nat)%type.
(* conns[:, (p, (p+1)%3)] for one row *)
Definition side (c : list nat) (p : nat) : face := (nth p c 0, nth ((p + 1) mod 3) c 0).
(* allTriFaces = vstack((conns[:,(0,1)], conns[:,(1,2)], conns[:,(2,0)])): row p*nT + t is side p of triangle t *)
Definition all_faces (conns : list (list nat)) : list face :=
  map (fun c => side c 0) conns ++ map (fun c => side c 1) conns ++ map (fun c => side c 2) conns.
(* np.sort(row) *)
Definition key (f : face) : face := (Nat.min (fst f) (snd f), Nat.max (fst f) (snd f)).
Definition flip (f : face) : face := (snd f, fst f).
Definition face_eqb (f g : face) : bool := (fst f =? fst g) && (snd f =? snd g).
Definition key_ltb (f g : face) : bool := (fst f <? fst g) || ((fst f =? fst g) && (snd f <? snd g)).

(* (index, key) of the first occurrence of every distinct key, in order of appearance *)
Fixpoint firsts (seen : list face) (i : nat) (ks : list face) : list (nat * face) :=
  match ks with
  | [] => []
  | k :: r => if existsb (face_eqb k) seen then firsts seen (S i) r else (i, k) :: firsts (k :: seen) (S i) r
  end.
(* lexicographic sort of the distinct keys *)
Fixpoint insert_by (x : nat * face) (l : list (nat * face)) : list (nat * face) :=
  match l with
  | [] => [x]
  | y :: r => if key_ltb (snd x) (snd y) then x :: y :: r else y :: insert_by x r
  end.
Definition sort_by (l : list (nat * face)) : list (nat * face) := fold_right insert_by [] l.
(* onp.where(rowsMatch)[0][0] *)
Fixpoint find_index (f : face) (l : list face) : option nat :=
  match l with
  | [] => None
  | g :: r => if face_eqb f g then Some 0 else option_map S (find_index f r)
  end.

Record edge_row := mkRow { e_a : nat; e_b : nat; e_tl : nat; e_pl : nat; e_right : option (nat * nat) }.
Definition unique_index (conns : list (list nat)) : list nat :=
  map fst (sort_by (firsts [] 0 (map key (all_faces conns)))).
Definition row_of (conns : list (list nat)) (i : nat) : edge_row :=
  let nT := length conns in
  let faces := all_faces conns in
  let f := nth i faces (0, 0) in
  mkRow (fst f) (snd f) (i mod nT) (i / nT)
        (match find_index (flip f) faces with Some j => Some (j mod nT, j / nT) | None => None end).
(* edgeConns[i] = (e_a, e_b); edges[i] = (e_tl, e_pl, tR, pR) *)
Definition create_edges (conns : list (list nat)) : list edge_row := map (row_of conns) (unique_index conns).

(* specification vocabulary *)
Definition edge_key (r : edge_row) : face := key (e_a r, e_b r).
(* triangle t holds the directed pair f on its side p *)
Definition holds (conns : list (list nat)) (t p : nat) (f : face) : Prop :=
  t < length conns /\ p < 3 /\ side (nth t conns []) p = f.

(* exchange with the harness *)
From Coq Require Import ZArith.
Definition enc_row (r : edge_row) : list Z :=
  [Z.of_nat (e_a r); Z.of_nat (e_b r); Z.of_nat (e_tl r); Z.of_nat (e_pl r)]
  ++ match e_right r with Some (t, p) => [Z.of_nat t; Z.of_nat p] | None => [(-1)%Z; (-1)%Z] end.
Definition enc_edges (conns : list (list Z)) : list Z := flat_map enc_row (create_edges (map (map Z.to_nat) conns)).
