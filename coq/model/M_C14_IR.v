(* C14 -- a little NumPy-subset IR (abstract syntax) and its interpreter.
   The IR VALUES (the syntax trees of every method of FunctionSpace.DofManager and of
   SparseMatrixAssembler.assemble_sparse_stiffness_matrix) are regenerated from /repo's AST on every run (gen/CFG_Dof.v,
   tools/vlib/extract_dof.py); this file only fixes the vocabulary and gives it a meaning.  proofs/L_C14_IR.v proves that
   running the extracted syntax trees IS the hand model model/M_C14_Dof.v / M_C14_Asm.v.

   Semantics in short.  Values: python ints (nat; a negated literal is a Z scalar), bools, strings, tuples, boolean / index (nat)
   / integer (Z) / field-value (A) arrays as (shape, flat row-major data), the connectivity table as a list of rows, a basic
   slice of the (nNodes, dim) field as the list of flat positions it selects (as the hand model does), mesh.nodeSets as a
   function from names to node lists, objects as field lists, COO / CSC matrices as (shape, rows, cols, values) triples.
   Array primitives are the list functions of M_C14_Dof.v (mask_select, mask_set, scatter, set_nth, gatherZ, el_dofs ...):
   like there, an out-of-range read returns a default and an out-of-range write is a no-op where NumPy raises IndexError,
   and boolean-mask / value length mismatches (NumPy: IndexError / ValueError) are not detected -- the theorems state the
   guards.  In-place updates have value semantics (no aliasing is observed in these methods: every array mutated after an
   alias was taken is not read through the alias afterwards).
   Anything not listed evaluates to None: unsupported syntax / an unknown name can never evaluate to something.
   Method calls on self run the callee's own extracted syntax tree (depth fuel F).  A namespace is a finite map: binding a name
   that is already bound replaces its value in place, a new name is put in front (so the environment has the same shape before
   and after a loop iteration, which is what the loop invariants of proofs/L_C14_Ctor.v use).  Executable definitions only. *)
From Coq Require Import String ZArith List Bool Arith.
From OV.model Require Import M_C14_Dof.
Import ListNotations.
Open Scope string_scope.
Open Scope list_scope.

Inductive expr :=
| EName (x : string)
| EAttr (e : expr) (a : string)
| EInt (n : nat)
| EBool (b : bool)
| ENone
| EFloat (s : string)                      (* float literal, source text *)
| EStr (s : string)
| ETuple (l : list expr)
| ECall (f : expr) (args : list expr) (kws : list (string * expr))
| EIndex (e : expr) (idx : list expr)
| EColon                                   (* `:` inside a subscript *)
| ESlice (lo hi : expr)                    (* `lo:hi` inside a subscript *)
| EInvert (e : expr)
| ENeg (e : expr)
| EMul (a b : expr)
| EAdd (a b : expr).

Inductive stmt :=
| SAssign (ts : list expr) (e : expr)            (* t = e  /  a, b = e  /  x[idx] = e  /  self.a = e *)
| SAugAdd (x : string) (e : expr)                (* x += e *)
| SFor (vars : list string) (it : expr) (body : list stmt)
| SReturn (e : expr).

Record fundef := { f_params : list string; f_defaults : list (string * expr); f_body : list stmt }.

Definition prodn (sh : list nat) : nat := fold_right Nat.mul 1 sh.
(* a.T.ravel() of a (n, k) array *)
Definition transpose2 {X} (d0 : X) (n k : nat) (d : list X) : list X :=
  flat_map (fun j => map (fun i => nth (i * k + j) d d0) (seq 0 n)) (seq 0 k).
(* a[lo:hi] = vals  (the caller supplies exactly hi-lo values; NumPy raises otherwise) *)
Definition slice_assign {X} (lo hi : nat) (base vals : list X) : list X := firstn lo base ++ vals ++ skipn hi base.
(* block e of a (nE, nd, nd) boolean array: rows (resp. columns) whose flag is set become false *)
Definition knock_rows (flag : list bool) (nd : nat) (blk : list bool) : list bool :=
  flat_map (fun a => map (fun b => if nth a flag false then false else nth (a * nd + b) blk false) (seq 0 nd)) (seq 0 nd).
Definition knock_cols (flag : list bool) (nd : nat) (blk : list bool) : list bool :=
  flat_map (fun a => map (fun b => if nth b flag false then false else nth (a * nd + b) blk false) (seq 0 nd)) (seq 0 nd).
Definition on_block {X} (e sz : nat) (f : list X -> list X) (d : list X) : list X :=
  firstn (e * sz) d ++ f (firstn sz (skipn (e * sz) d)) ++ skipn (e * sz + sz) d.

Section Interp.
  Context {A : Type} (zero : A).

  Inductive val :=
  | VNone
  | VInt (n : nat)
  | VZs (z : Z)
  | VBool (b : bool)
  | VSc (a : A)
  | VStr (s : string)
  | VTup (l : list val)
  | VB (sh : list nat) (d : list bool)
  | VN (sh : list nat) (d : list nat)
  | VZ (sh : list nat) (d : list Z)
  | VA (sh : list nat) (d : list A)
  | VConns (rows : list (list nat))
  | VPos (pos : list nat)
  | VColon
  | VSl (lo hi : nat)
  | VDict (f : string -> list nat)
  | VObj (fields : list (string * val))
  | VCoo (n m : nat) (rows cols : list Z) (vals : list A)
  | VCsc (n m : nat) (rows cols : list Z) (vals : list A).

  Definition env := list (string * val).
  Fixpoint lookup (x : string) (r : env) : option val :=
    match r with [] => None | (y, v) :: r' => if String.eqb x y then Some v else lookup x r' end.
  (* x = v : a name that is already bound is re-bound IN PLACE, a new name is put in front (a namespace is a finite map; keeping one
     entry per name makes the environment after a loop iteration have the same shape as before it) *)
  Fixpoint bound (x : string) (r : env) : bool :=
    match r with [] => false | (y, _) :: r' => if String.eqb x y then true else bound x r' end.
  Fixpoint rebind (x : string) (v : val) (r : env) : env :=
    match r with [] => [] | (y, w) :: r' => if String.eqb x y then (y, v) :: r' else (y, w) :: rebind x v r' end.
  Definition bind (x : string) (v : val) (r : env) : env := if bound x r then rebind x v r else (x, v) :: r.

  Definition shape_of (v : val) : option (list nat) :=
    match v with
    | VB sh _ | VN sh _ | VZ sh _ | VA sh _ => Some sh
    | VConns rows => Some [length rows; length (hd [] rows)]
    | _ => None
    end.
  Definition size_of (v : val) : option nat :=
    match v with
    | VB _ d => Some (length d) | VN _ d => Some (length d) | VZ _ d => Some (length d) | VA _ d => Some (length d)
    | _ => None
    end.
  Definition ints_of (l : list val) : option (list nat) :=
    fold_right (fun v acc => match v, acc with VInt n, Some r => Some (n :: r) | _, _ => None end) (Some []) l.

  (* ---- attributes of values ---- *)
  Definition attr (v : val) (a : string) : option val :=
    match v with
    | VObj fs => lookup a fs
    | _ =>
      if String.eqb a "size" then option_map VInt (size_of v)
      else if String.eqb a "shape" then option_map (fun sh => VTup (map VInt sh)) (shape_of v)
      else if String.eqb a "T" then
        match v with VZ [n; k] d => Some (VZ [k; n] (transpose2 0%Z n k d)) | _ => None end
      else None
    end.

  (* ---- onp.* / np.* functions; dt = the dtype keyword if given ---- *)
  Definition is_dt (dt : option string) (s : string) : bool := match dt with Some d => String.eqb d s | None => false end.
  Definition no_dt (dt : option string) : bool := match dt with None => true | Some _ => false end.
  Definition np_call (fn : string) (args : list val) (dt : option string) : option val :=
    if String.eqb fn "full" then
      match args with
      | [VTup sh; VBool b] => if is_dt dt "bool" then option_map (fun s => VB s (repeat b (prodn s))) (ints_of sh) else None
      | _ => None
      end
    else if String.eqb fn "arange" then
      match args with [VInt n] => if no_dt dt then Some (VN [n] (seq 0 n)) else None | _ => None end
    else if String.eqb fn "ones" then
      match args with [VInt n] => if is_dt dt "int" then Some (VN [n] (repeat 1 n)) else None | _ => None end
    else if String.eqb fn "zeros" then
      match args with
      | [VInt n] => if is_dt dt "int" then Some (VN [n] (repeat 0 n)) else None
      | [VTup sh] => if no_dt dt then option_map (fun s => VA s (repeat zero (prodn s))) (ints_of sh) else None
      | _ => None
      end
    else if String.eqb fn "sum" then
      match args with [VB _ d] => if no_dt dt then Some (VInt (count_true d)) else None | _ => None end
    else if String.eqb fn "square" then
      match args with [VInt n] => if no_dt dt then Some (VInt (n * n)) else None | _ => None end
    else if String.eqb fn "tile" then
      match args with
      | [VZ [k] d; VTup [VInt n; VInt 1]] => if no_dt dt then Some (VZ [n; k] (concat (repeat d n))) else None
      | _ => None
      end
    else if String.eqb fn "array" then
      match args with [VConns rows] => if no_dt dt then Some (VConns rows) else None | _ => None end
    else None.

  (* ---- methods of values ---- *)
  Definition val_method (v : val) (m : string) (args : list val) : option val :=
    if String.eqb m "reshape" then
      match args with
      | [VTup sh] =>
        match ints_of sh, v with
        | Some s, VN _ d => Some (VN s d) | Some s, VZ _ d => Some (VZ s d) | Some s, VA _ d => Some (VA s d)
        | Some s, VB _ d => Some (VB s d) | _, _ => None
        end
      | _ => None
      end
    else if String.eqb m "ravel" then
      match args, v with
      | [], VB _ d => Some (VB [length d] d) | [], VZ _ d => Some (VZ [length d] d) | [], VN _ d => Some (VN [length d] d)
      | _, _ => None
      end
    else if String.eqb m "item" then match args, v with [], VInt n => Some (VInt n) | _, _ => None end
    else if String.eqb m "copy" then match args, v with [], VN sh d => Some (VN sh d) | [], VZ sh d => Some (VZ sh d) | _, _ => None end
    else if String.eqb m "tocsc" then match args, v with [], VCoo n k r c x => Some (VCsc n k r c x) | _, _ => None end
    else None.

  (* ---- a[idx] ---- *)
  Definition index_val (v : val) (idx : list val) : option val :=
    match v, idx with
    | VN _ d, [VB _ m] => Some (VN [count_true m] (mask_select m d))
    | VA _ d, [VB _ m] => Some (VA [count_true m] (mask_select m d))
    | VZ _ d, [VB _ m] => Some (VZ [count_true m] (mask_select m d))
    | VB _ d, [VPos pos] => Some (VB [length pos] (map (fun p => nth p d false) pos))
    | VZ _ d, [VPos pos] => Some (VZ [length pos] (map (fun p => nth p d (-1)%Z) pos))
    | VZ _ d, [VN sh ix] => Some (VZ sh (map (fun p => nth p d (-1)%Z) ix))
    | VA _ d, [VZ sh j] => Some (VA sh (gatherZ zero d j))
    | VTup l, [VInt k] => nth_error l k
    | VDict f, [VStr s] => Some (VN [length (f s)] (f s))
    | VB [_; dm] d, [VN _ nodes; VColon] => Some (VB [length nodes; dm] (map (fun p => nth p d false) (el_dofs dm nodes)))
    | VN [_; dm] d, [VN _ nodes; VColon] => Some (VN [length nodes; dm] (map (fun p => nth p d 0) (el_dofs dm nodes)))
    | VN _ d, [VInt k] => Some (VInt (nth k d 0))
    | _, _ => None
    end.

  (* ---- a[idx] = w ---- *)
  Definition setindex_val (v : val) (idx : list val) (w : val) : option val :=
    match v, idx, w with
    | VB [n; dm] d, [VN _ nodes; VInt comp], VBool true => Some (VB [n; dm] (fold_left (set_bc_node n dm comp) nodes d))
    | VZ sh d, [VN _ ix], VN _ vals => Some (VZ sh (scatter d ix (map Z.of_nat vals)))
    | VN sh d, [VInt k], VInt x => Some (VN sh (set_nth k x d))
    | VN sh d, [VSl lo hi], VZ _ vals => Some (VZ sh (slice_assign lo hi (map Z.of_nat d) vals))
    | VZ sh d, [VSl lo hi], VZ _ vals => Some (VZ sh (slice_assign lo hi d vals))
    | VB [nE; nd; nd'] d, [VInt e; VB _ flag; VColon], VBool false =>
        if Nat.eqb nd nd' then Some (VB [nE; nd; nd] (on_block e (nd * nd) (knock_rows flag nd) d)) else None
    | VB [nE; nd; nd'] d, [VInt e; VColon; VB _ flag], VBool false =>
        if Nat.eqb nd nd' then Some (VB [nE; nd; nd] (on_block e (nd * nd) (knock_cols flag nd) d)) else None
    | _, _, _ => None
    end.

  Definition dtype_of (kws : list (string * expr)) : option (option string) :=
    match kws with
    | [] => Some None
    | [(k, EName d)] => if String.eqb k "dtype" && (String.eqb d "int" || String.eqb d "bool") then Some (Some d) else None
    | _ => None
    end.

  Section WithCalls.
    (* self.<method>(args): supplied by `run` below (depth fuel) *)
    Variable call_method : string -> val -> list val -> option val.

    Fixpoint eval (r : env) (e : expr) {struct e} : option val :=
      let evals := fix evals (l : list expr) : option (list val) :=
        match l with
        | [] => Some []
        | x :: t => match eval r x, evals t with Some v, Some vs => Some (v :: vs) | _, _ => None end
        end in
      match e with
      | EName x => lookup x r
      | EAttr o a => match eval r o with Some v => attr v a | None => None end
      | EInt n => Some (VInt n)
      | EBool b => Some (VBool b)
      | ENone => Some VNone
      | EFloat s => if String.eqb s "0.0" then Some (VSc zero) else None
      | EStr s => Some (VStr s)
      | ETuple l => option_map VTup (evals l)
      | EColon => Some VColon
      | ESlice lo hi => match eval r lo, eval r hi with Some (VInt a), Some (VInt b) => Some (VSl a b) | _, _ => None end
      | EInvert a => match eval r a with Some (VB sh d) => Some (VB sh (map negb d)) | _ => None end
      | ENeg a => match a with EInt n => Some (VZs (- Z.of_nat n)) | _ => None end
      | EMul a b =>
          match eval r a, eval r b with
          | Some (VInt x), Some (VInt y) => Some (VInt (x * y))
          | Some (VN sh d), Some (VZs z) => Some (VZ sh (map (fun k => (Z.of_nat k * z)%Z) d))
          | _, _ => None
          end
      | EAdd a b => match eval r a, eval r b with Some (VInt x), Some (VInt y) => Some (VInt (x + y)) | _, _ => None end
      | EIndex o idx => match eval r o, evals idx with Some v, Some ix => index_val v ix | _, _ => None end
      | ECall f args kws =>
          match f with
          | EName g =>
              if String.eqb g "enumerate" then
                match evals args, kws with
                | Some [VConns rows], [] =>
                    Some (VTup (map (fun kr => VTup [VInt (fst kr); VN [length (snd kr)] (snd kr)]) (combine (seq 0 (length rows)) rows)))
                | _, _ => None
                end
              else if String.eqb g "coo_matrix" then
                match evals args, kws with
                | Some [VTup [VA _ vals; VTup [VZ _ rows; VZ _ cols]]], [(k, sh)] =>
                    if String.eqb k "shape" then
                      match eval r sh with Some (VTup [VInt n; VInt m]) => Some (VCoo n m rows cols vals) | _ => None end
                    else None
                | _, _ => None
                end
              else None
          | EAttr (EName m) fn =>
              if String.eqb m "onp" || String.eqb m "np" then
                match evals args, dtype_of kws with Some vs, Some dt => np_call fn vs dt | _, _ => None end
              else if String.eqb m "Mesh" then
                if String.eqb fn "num_nodes" then
                  match evals args, kws with Some [VObj fs], [] => lookup "num_nodes" fs | _, _ => None end
                else None
              else if String.eqb m "self" then
                match lookup "self" r, evals args, kws with
                | Some s, Some vs, [] => call_method fn s vs
                | _, _, _ => None
                end
              else
                match lookup m r, evals args, kws with Some v, Some vs, [] => val_method v fn vs | _, _, _ => None end
          | EAttr (EIndex (EAttr b at_) [mk]) set_ =>
              if String.eqb at_ "at" && String.eqb set_ "set" then
                match eval r b, eval r mk, evals args, kws with
                | Some (VA sh d), Some (VB _ m), Some [VA _ vals], [] => Some (VA sh (mask_set m d vals))
                | Some (VA sh d), Some (VB _ m), Some [VSc c], [] => Some (VA sh (mask_set m d (repeat c (count_true m))))
                | _, _, _, _ => None
                end
              else None
          | EAttr o m =>
              match eval r o, evals args, kws with Some v, Some vs, [] => val_method v m vs | _, _, _ => None end
          | _ => None
          end
      end.

    Definition evals (r : env) (l : list expr) : option (list val) :=
      fold_right (fun x acc => match eval r x, acc with Some v, Some vs => Some (v :: vs) | _, _ => None end) (Some []) l.

    Inductive outcome := ONext (r : env) | ORet (v : val).

    (* t = v *)
    Definition assign1 (r : env) (t : expr) (v : val) : option env :=
      match t with
      | EName x => Some (bind x v r)
      | EAttr (EName s) a =>
          if String.eqb s "self" then
            match lookup "self" r with Some (VObj fs) => Some (bind "self" (VObj ((a, v) :: fs)) r) | _ => None end
          else None
      | EIndex (EName x) idx =>
          match lookup x r, evals r idx with
          | Some arr, Some ix => option_map (fun arr' => bind x arr' r) (setindex_val arr ix v)
          | _, _ => None
          end
      | _ => None
      end.
    Fixpoint assign_many (r : env) (ts : list expr) (vs : list val) : option env :=
      match ts, vs with
      | [], [] => Some r
      | t :: ts', v :: vs' => match assign1 r t v with Some r' => assign_many r' ts' vs' | None => None end
      | _, _ => None
      end.
    Fixpoint bind_vars (r : env) (xs : list string) (vs : list val) : option env :=
      match xs, vs with
      | [], [] => Some r
      | x :: xs', v :: vs' => bind_vars (bind x v r) xs' vs'
      | _, _ => None
      end.

    (* for <vars> in items: step *)
    Fixpoint loop (step : env -> val -> option outcome) (items : list val) (r : env) : option outcome :=
      match items with
      | [] => Some (ONext r)
      | it :: rest => match step r it with Some (ONext r') => loop step rest r' | other => other end
      end.

    Fixpoint exec (r : env) (s : stmt) {struct s} : option outcome :=
      let block := fix block (r : env) (l : list stmt) : option outcome :=
        match l with
        | [] => Some (ONext r)
        | x :: t => match exec r x with Some (ONext r') => block r' t | other => other end
        end in
      match s with
      | SAssign [t] e => match eval r e with Some v => option_map ONext (assign1 r t v) | None => None end
      | SAssign ts e => match eval r e with Some (VTup vs) => option_map ONext (assign_many r ts vs) | _ => None end
      | SAugAdd x e =>
          match lookup x r, eval r e with Some (VInt a), Some (VInt b) => Some (ONext (bind x (VInt (a + b)) r)) | _, _ => None end
      | SFor vars it body =>
          match eval r it with
          | Some (VTup items) =>
              loop (fun r0 item =>
                      match vars, item with
                      | [x], _ => block (bind x item r0) body
                      | _, VTup vs => match bind_vars r0 vars vs with Some r1 => block r1 body | None => None end
                      | _, _ => None
                      end) items r
          | _ => None
          end
      | SReturn e => option_map ORet (eval r e)
      end.

    Fixpoint exec_block (r : env) (l : list stmt) : option outcome :=
      match l with
      | [] => Some (ONext r)
      | x :: t => match exec r x with Some (ONext r') => exec_block r' t | other => other end
      end.

    (* parameters: positional arguments, then defaults for the missing trailing ones *)
    Fixpoint bind_params (r : env) (ps : list string) (args : list val) (defs : list (string * expr)) : option env :=
      match ps, args with
      | [], [] => Some r
      | p :: ps', a :: args' => bind_params (bind p a r) ps' args' defs
      | p :: ps', [] =>
          match find (fun d => String.eqb (fst d) p) defs with
          | Some d => match eval [] (snd d) with Some v => bind_params (bind p v r) ps' [] defs | None => None end
          | None => None
          end
      | [], _ :: _ => None
      end.
    Definition run_body (fd : fundef) (args : list val) : option outcome :=
      match bind_params [] (f_params fd) args (f_defaults fd) with
      | Some r => exec_block r (f_body fd)
      | None => None
      end.
  End WithCalls.

  (* ---- calls with depth fuel: a method called on self is run from the method table ---- *)
  Section Run.
    Variable methods : list (string * fundef).
    Fixpoint call (F : nat) (m : string) (self : val) (args : list val) : option val :=
      match F with
      | 0 => None
      | S F' =>
          match find (fun d => String.eqb (fst d) m) methods with
          | Some d => match run_body (call F') (snd d) (self :: args) with
                      | Some (ORet v) => Some v
                      | Some (ONext _) => Some VNone
                      | None => None
                      end
          | None => None
          end
      end.
    (* the constructor: the object after __init__ ran on an empty object *)
    Definition construct (F : nat) (args : list val) : option val :=
      match find (fun d => String.eqb (fst d) "__init__") methods with
      | Some d => match run_body (call F) (snd d) (VObj [] :: args) with
                  | Some (ONext r) => lookup "self" r
                  | _ => None
                  end
      | None => None
      end.
    (* a module-level function (no self) *)
    Definition run_function (fd : fundef) (args : list val) : option val :=
      match run_body (fun _ _ _ => None) fd args with Some (ORet v) => Some v | _ => None end.
  End Run.
End Interp.

Arguments VNone {A}. Arguments VInt {A}. Arguments VZs {A}. Arguments VBool {A}. Arguments VStr {A}. Arguments VB {A}.
Arguments VN {A}. Arguments VZ {A}. Arguments VConns {A}. Arguments VPos {A}. Arguments VColon {A}. Arguments VSl {A}.
Arguments VDict {A}.

(* ---------- a syntactic guard for the interpreter's VALUE semantics of arrays ----------
   NumPy arrays are references: after `x = y` (or a view: y.T, y.reshape(..), y.ravel(), y[...]) an in-place update `x[..] = v` is
   seen through y as well, whereas the interpreter above copies values.  The two readings agree on a function body when no array
   that is updated in place can be observed through another name.  alias_safe is a conservative syntactic sufficient condition
   (checked by computation on the extracted syntax trees of every run, props/P_C14.v C14_source_no_observable_aliasing):
   - parameters are never updated in place;
   - a top-level assignment `t = e` whose right-hand side may share storage with a plain name y (shares e) is allowed only if
       t is a plain name x and neither x nor y is updated in place afterwards, or one of x, y is never mentioned again (dead), or
       t is an attribute (self.a = y: the object escapes) and y is never updated in place afterwards, or
       t is a subscript (x[..] = e copies the data);
   - inside a `for` body no assignment to a name / attribute shares storage with a name that is updated in place anywhere.
   Fresh arrays: every onp.* / np.* constructor, .copy(), arithmetic, calls of other functions / methods.  Indexing is always
   treated as a possible view (conservative). *)
Fixpoint enames (e : expr) : list string :=
  match e with
  | EName x => [x]
  | EAttr a _ => enames a
  | ETuple l => flat_map enames l
  | ECall f args kws => enames f ++ flat_map enames args ++ flat_map (fun kv => let '(_, v) := kv in enames v) kws
  | EIndex a idx => enames a ++ flat_map enames idx
  | ESlice a b => enames a ++ enames b
  | EInvert a => enames a
  | ENeg a => enames a
  | EMul a b => enames a ++ enames b
  | EAdd a b => enames a ++ enames b
  | _ => []
  end.
Fixpoint shares (e : expr) : list string :=
  match e with
  | EName x => [x]
  | EAttr a f => if String.eqb f "T" then shares a else []
  | ETuple l => flat_map shares l
  | ECall (EAttr a m) _ _ => if String.eqb m "reshape" || String.eqb m "ravel" then shares a else []
  | EIndex a _ => shares a
  | _ => []
  end.
Definition mem (x : string) (l : list string) : bool := existsb (String.eqb x) l.
Definition target_mutated (t : expr) : list string := match t with EIndex (EName x) _ => [x] | _ => [] end.
Fixpoint mutated_in (s : stmt) : list string :=
  match s with
  | SAssign ts _ => flat_map target_mutated ts
  | SFor _ _ body => flat_map mutated_in body
  | _ => []
  end.
Fixpoint refs_in (s : stmt) : list string :=
  match s with
  | SAssign ts e => flat_map enames ts ++ enames e
  | SAugAdd x e => x :: enames e
  | SFor _ it body => enames it ++ flat_map refs_in body
  | SReturn e => enames e
  end.
(* inside a loop body: nothing assigned to a name / attribute may share storage with a name updated in place anywhere *)
Fixpoint loop_alias_free (mut_all : list string) (s : stmt) : bool :=
  match s with
  | SAssign ts e =>
      forallb (fun t => match t with
                        | EIndex _ _ => true
                        | _ => forallb (fun y => negb (mem y mut_all)) (shares e)
                        end) ts
  | SFor _ _ body => forallb (loop_alias_free mut_all) body
  | _ => true
  end.
Definition assign_alias_ok (later_mut later_refs : list string) (t : expr) (y : string) : bool :=
  match t with
  | EName x => (negb (mem x later_mut) && negb (mem y later_mut))
               || (negb (mem y later_refs) && negb (mem y later_mut))
               || (negb (mem x later_refs) && negb (mem x later_mut))
  | EAttr _ _ => negb (mem y later_mut)
  | EIndex _ _ => true
  | _ => false
  end.
Fixpoint block_alias_ok (mut_all : list string) (l : list stmt) : bool :=
  match l with
  | [] => true
  | s :: rest =>
      (match s with
       | SAssign ts e =>
           let later_mut := flat_map mutated_in rest in
           let later_refs := flat_map refs_in rest in
           forallb (fun t => forallb (assign_alias_ok later_mut later_refs t) (shares e)) ts
       | SFor _ _ body => forallb (loop_alias_free mut_all) body
       | _ => true
       end) && block_alias_ok mut_all rest
  end.
Definition alias_safe (fd : fundef) : bool :=
  let mut_all := flat_map mutated_in (f_body fd) in
  forallb (fun p => negb (mem p mut_all)) (f_params fd) && block_alias_ok mut_all (f_body fd).

(* ---------- the hand model seen as a DofManager OBJECT of the interpreter (field order = order of the class annotations) ---------- *)
Definition dof_object {A} (nNodes dim : nat) (isBc : list bool) (conns : list (list nat)) : @val A :=
  let nd := List.length (hd [] conns) * dim in
  VObj [("fieldShape", VTup [VInt nNodes; VInt dim]);
        ("isBc", VB [nNodes; dim] isBc);
        ("isUnknown", VB [nNodes; dim] (isUnknown isBc));
        ("ids", VN [nNodes; dim] (ids isBc));
        ("unknownIndices", VN [count_true (isUnknown isBc)] (unknownIndices isBc));
        ("bcIndices", VN [count_true isBc] (bcIndices isBc));
        ("dofToUnknown", VZ [List.length isBc] (dofToUnknown isBc));
        ("HessRowCoords", VZ [List.length (HessRowCoords isBc dim conns)] (HessRowCoords isBc dim conns));
        ("HessColCoords", VZ [List.length (HessRowCoords isBc dim conns)] (HessColCoords isBc dim conns));
        ("hessian_bc_mask", VB [List.length conns; nd; nd] (hessian_bc_mask isBc dim conns))].
(* an object reduced to the declared fields, in declared order (so that the order of the assignments in __init__ is immaterial) *)
Definition canon_object {A} (fields : list string) (o : @val A) : list (string * option (@val A)) :=
  match o with VObj fs => map (fun f => (f, lookup f fs)) fields | _ => [] end.
(* ... the same with integer arrays compared by their data whatever their tag (an array created by zeros(n, dtype=int) and never
   written through a slice keeps the index tag VN: this happens to rowCoords / colCoords only for a mesh without elements) *)
Definition znorm {A} (v : @val A) : @val A := match v with VN sh d => VZ sh (map Z.of_nat d) | _ => v end.
Definition canon_data {A} (fields : list string) (o : @val A) : list (string * option (@val A)) :=
  match o with VObj fs => map (fun f => (f, option_map znorm (lookup f fs))) fields | _ => [] end.
(* integer data of an int array whatever its tag *)
Definition zdata {A} (v : @val A) : option (list Z) :=
  match v with VZ _ d => Some d | VN _ d => Some (map Z.of_nat d) | _ => None end.

(* ---------- the constructor's arguments as interpreter values (used by the statements C14_source_constructor etc. of props/P_C14.v) ----------
   a function space whose mesh has nNodes nodes, the node-set table `sets` (name -> node list) and the connectivity `conns`;
   a list of essential BCs (node-set name, component); the same BC list as the hand model takes it (node lists instead of names);
   a rectangular connectivity table (every row as long as the first: it is a 2-D array) *)
Definition mk_fsp {A} (nNodes : nat) (sets : string -> list nat) (conns : list (list nat)) : @val A :=
  VObj [("mesh", VObj [("num_nodes", VInt nNodes); ("nodeSets", VDict sets); ("conns", VConns conns)])].
Definition ebc_val {A} (e : string * nat) : @val A := VObj [("nodeSet", VStr (fst e)); ("component", VInt (snd e))].
Definition mk_ebcs {A} (ebl : list (string * nat)) : @val A := VTup (map ebc_val ebl).
Definition ebcs_of (sets : string -> list nat) (ebl : list (string * nat)) : list (list nat * nat) :=
  map (fun e => (sets (fst e), snd e)) ebl.
Definition rect_conns (conns : list (list nat)) : Prop :=
  Forall (fun row => List.length row = List.length (hd [] conns)) conns.

(* ---------- correspondence: the extracted DofManager run on one case (same layout as the first ten outputs of run_case) ---------- *)
Fixpoint set_name (k : nat) : string := match k with 0 => "" | S k' => String.append "x" (set_name k') end.
Definition bvals {A} (v : option (@val A)) : list Z := match v with Some (VB _ d) => encb d | _ => [(-7)%Z] end.
Definition zvals {A} (v : option (@val A)) : list Z := match v with Some w => match zdata w with Some d => d | None => [(-7)%Z] end | None => [(-7)%Z] end.
Definition ivals {A} (v : option (@val A)) : list Z := match v with Some (VInt n) => [Z.of_nat n] | _ => [(-7)%Z] end.
Definition run_ir_case (methods : list (string * fundef)) (nNodes dim : Z) (ebcs : list (list Z * Z)) (conns : list (list Z)) : list Z :=
  let sets := map (fun e => nl (fst e)) ebcs in
  let fsp : @val Z := VObj [("mesh", VObj [("num_nodes", VInt (Z.to_nat nNodes)); ("nodeSets", VDict (fun s => nth (String.length s) sets []));
                                          ("conns", VConns (map nl conns))])] in
  let ebv : @val Z := VTup (map (fun ke => VObj [("nodeSet", VStr (set_name (fst ke))); ("component", VInt (Z.to_nat (snd (snd ke))))])
                                (combine (seq 0 (List.length ebcs)) ebcs)) in
  match construct 0%Z methods 3 [fsp; VInt (Z.to_nat dim); ebv] with
  | Some (VObj fs) =>
      let o := VObj fs in
      pack [ bvals (lookup "isBc" fs); bvals (lookup "isUnknown" fs); zvals (lookup "ids" fs); zvals (lookup "unknownIndices" fs);
             zvals (lookup "bcIndices" fs); zvals (lookup "dofToUnknown" fs);
             ivals (call 0%Z methods 2 "get_bc_size" o []) ++ ivals (call 0%Z methods 2 "get_unknown_size" o []);
             zvals (lookup "HessRowCoords" fs); zvals (lookup "HessColCoords" fs); bvals (lookup "hessian_bc_mask" fs) ]
  | _ => [(-9)%Z]
  end.
