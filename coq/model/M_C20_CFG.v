(* C20: structural tie of the hand model to the source of optimism/VTKWriter.py.
   A tiny IR for the OUTPUT STRUCTURE of the writer: for every method, the sequence of vtkFile.write(..) events (the words of the
   literal / format text with holes for formatted values, or a table written by write_matrix_as_table), the calls of other
   section writers, the `for` loops (over self.spheres / self.contactEdges / the field dict) and the `if`s that contain output.
   The IR VALUES are regenerated from /repo's AST on every run (gen/CFG_vtk.v, tools/vlib/extract_vtk.py, fail closed); this
   file fixes the vocabulary, the hand model's own structure table [model_cfg] and the interpreter [kw_trace] that turns an IR
   and the SHAPE of a writer state into the sequence of keyword tokens the code writes.  No proofs here. *)
From Coq Require Import List Bool String ZArith.
From OV.model Require Import M_C20 M_C20_Num.
Import ListNotations.
Open Scope string_scope.

Inductive piece := PText (w : string) | PHole | PAttr (a : string).      (* literal word / formatted value / self.<a> *)
Inductive cnd :=
| CNonEmpty (a : string)            (* self.<a> is a non-empty dict / len(self.<a>) > 0 *)
| CFieldType (ft : string)          (* fieldType == VTKFieldType.<ft> *)
| CNot (c : cnd) | COr (a b : cnd) | CAnd (a b : cnd)
| COther (src : string).
Inductive stmt :=
| SWrite (ps : list piece)
| STable
| SCall (m : string) (arg : string)          (* self.<m>(..); arg = the self attribute the passed field dict was copied from, "" if none *)
| SFor (over : string) (body : list stmt)
| SIf (c : cnd) (a b : list stmt).
Definition cfg : Type := list (string * list stmt).

(* ---- the hand model's structure, written next to the emit_* functions of M_C20.v it describes:
   write = header ++ emit_points ++ emit_cells (element rows, then edge rows) ++ emit_types ++ emit_pointdata ++ emit_celldata *)
Definition model_cfg : cfg :=
  [("write", [SCall "_write_header" ""; SCall "_write_coordinate_data" ""; SCall "_write_cell_connectivity" "";
              SCall "_write_contact_edges" ""; SCall "_write_cell_types" ""; SCall "_write_nodal_fields" "";
              SCall "_write_cell_fields" ""]);
   ("_write_header", [SWrite [PText "#"; PText "vtk"; PText "DataFile"; PText "Version"; PText "3.0"];
                      SWrite [PText "Written"; PText "from"; PText "jax-fem"];
                      SWrite [PAttr "vtkFormat"];
                      SWrite [PText "DATASET"; PText "UNSTRUCTURED_GRID"]]);
   ("_write_coordinate_data", [SWrite [PText "POINTS"; PHole; PText "double"]; STable; SWrite [];
                               SFor "spheres" [SWrite [PHole; PHole; PHole]]]);
   ("_write_cell_connectivity", [SWrite [PText "CELLS"; PHole; PHole]; STable; SWrite []]);
   ("_write_contact_edges", [SFor "contactEdges" [SWrite [PText "2"; PHole; PHole]]]);
   ("_write_cell_types", [SWrite [PText "CELL_TYPES"; PHole]; STable; SWrite []; SFor "contactEdges" [SWrite [PText "3"]]]);
   ("_write_nodal_fields", [SIf (COr (CNot (CNot (CNonEmpty "nodalFields"))) (CNonEmpty "spheres"))
                               [SWrite [PText "POINT_DATA"; PHole]; SCall "_write_out_all_fields_in_dict" "nodalFields"] []]);
   ("_write_cell_fields", [SIf (CNot (CNot (CNonEmpty "cellFields")))
                              [SWrite [PText "CELL_DATA"; PHole]; SCall "_write_out_all_fields_in_dict" "cellFields"] []]);
   ("_write_out_all_fields_in_dict",
      [SFor "fieldDict"
         [SIf (CFieldType "SCALARS") [SWrite [PText "SCALARS"; PHole; PHole]; SWrite [PText "LOOKUP_TABLE"; PText "default"]]
            [SIf (CFieldType "VECTORS") [SWrite [PText "VECTORS"; PHole; PHole]]
               [SIf (CFieldType "TENSORS") [SWrite [PText "TENSORS"; PHole; PHole]] []]];
          STable; SWrite []]])].
(* self.vtkFormat is the constant assigned in __init__ *)
Definition model_consts : list (string * string) := [("vtkFormat", "ASCII")].

(* ---- interpreter: the keyword tokens (TK / TF) written for a state of a given shape *)
Record shape := mkShape {
  sh_nsph : nat; sh_nedges : nat;
  sh_has_nodal : bool; sh_has_cell : bool;          (* self.nodalFields / self.cellFields non-empty *)
  sh_nodal : list ftype; sh_cell : list ftype }.    (* field types of the dict passed to the field loop (written order) *)
Definition ft_name (f : ftype) : string := match f with SCALARS => "SCALARS" | VECTORS => "VECTORS" | TENSORS => "TENSORS" end.
Fixpoint eval_cnd (sh : shape) (cur : option ftype) (c : cnd) : option bool :=
  match c with
  | CNonEmpty a => if String.eqb a "nodalFields" then Some (sh_has_nodal sh)
                   else if String.eqb a "cellFields" then Some (sh_has_cell sh)
                   else if String.eqb a "spheres" then Some (negb (Nat.eqb (sh_nsph sh) 0))
                   else if String.eqb a "contactEdges" then Some (negb (Nat.eqb (sh_nedges sh) 0)) else None
  | CFieldType ft => match cur with Some f => Some (String.eqb ft (ft_name f)) | None => None end
  | CNot a => option_map negb (eval_cnd sh cur a)
  | COr a b => match eval_cnd sh cur a, eval_cnd sh cur b with Some x, Some y => Some (x || y) | _, _ => None end
  | CAnd a b => match eval_cnd sh cur a, eval_cnd sh cur b with Some x, Some y => Some (x && y) | _, _ => None end
  | COther _ => None
  end.
Definition is_kwtok (t : tok) : bool := match t with TK _ | TF _ => true | _ => false end.
(* the keyword token of a literal word, if it is one; the two header lines are single tokens (their first word stands for them) *)
Definition piece_kw (consts : list (string * string)) (p : piece) : list tok :=
  let of_word w := if String.eqb w "#" then [TK KMagic] else if String.eqb w "Written" then [TK KTitle] else
                   match assoc w word_table with Some t => if is_kwtok t then [t] else [] | None => [] end in
  match p with
  | PText w => of_word w
  | PHole => []
  | PAttr a => match assoc a consts with Some w => of_word w | None => [TName (-9)] end
  end.
Definition err : list tok := [TName (-9)].        (* the interpreter met something it cannot evaluate: never equal to a model trace *)
Fixpoint run_stmts (fuel : nat) (c : cfg) (consts : list (string * string)) (sh : shape) (dict : list ftype) (cur : option ftype)
                   (l : list stmt) : list tok :=
  match fuel with
  | O => err
  | S f =>
    flat_map (fun s =>
      match s with
      | SWrite ps => flat_map (piece_kw consts) ps
      | STable => []
      | SCall m arg =>
          match assoc m c with
          | Some body =>
              let d := if String.eqb arg "nodalFields" then sh_nodal sh else if String.eqb arg "cellFields" then sh_cell sh else [] in
              run_stmts f c consts sh d None body
          | None => err
          end
      | SFor over body =>
          if String.eqb over "fieldDict" then flat_map (fun ft => run_stmts f c consts sh dict (Some ft) body) dict
          else if String.eqb over "spheres" then List.concat (repeat (run_stmts f c consts sh dict cur body) (sh_nsph sh))
          else if String.eqb over "contactEdges" then List.concat (repeat (run_stmts f c consts sh dict cur body) (sh_nedges sh))
          else err
      | SIf cd a b =>
          match eval_cnd sh cur cd with
          | Some true => run_stmts f c consts sh dict cur a
          | Some false => run_stmts f c consts sh dict cur b
          | None => err
          end
      end) l
  end.
Definition kw_trace (c : cfg) (consts : list (string * string)) (sh : shape) : list tok :=
  match assoc "write" c with Some body => run_stmts 8 c consts sh [] None body | None => err end.

(* the shape of a writer state and the keyword tokens of the model's file *)
Definition shape_of (w : writer) : shape :=
  mkShape (List.length (w_spheres w)) (List.length (w_edges w)) (negb (is_nil (w_nodal w))) (negb (is_nil (w_cell w)))
          (map (fun nf => f_ft (snd nf)) (written_nodal w)) (map (fun nf => f_ft (snd nf)) (written_cell w)).
Definition kws (ts : list tok) : list tok := filter is_kwtok ts.
Definition trace_ok (c : cfg) (consts : list (string * string)) (w : writer) : bool :=
  forallb2_eq (enc_toks (kw_trace c consts (shape_of w))) (enc_toks (kws (fst (write w)))).

(* ---- harness exchange: for every write() of a scenario, does the keyword trace of the IR (interpreted on the shape of the
   model state) equal the keyword tokens of the model's file?  (the model's file = the real file is checked separately) *)
Fixpoint run_trace (c : cfg) (consts : list (string * string)) (w : writer) (ops : list op) : list Z :=
  match ops with
  | [] => []
  | OpWrite :: r => bz (trace_ok c consts w) :: run_trace c consts (snd (write w)) r
  | OpNodal nm data ft dt :: r =>
      match add_nodal_field w nm data ft dt with Some w' => run_trace c consts w' r | None => [(-1)%Z] end
  | OpCell nm data ft dt :: r =>
      match add_cell_field w nm data ft dt with Some w' => run_trace c consts w' r | None => [(-1)%Z] end
  | OpSphere x y r0 :: r => run_trace c consts (add_sphere w x y r0) r
  | OpEdges es :: r => run_trace c consts (add_contact_edges w es) r
  end.
Definition trace_scenario (c : cfg) (consts : list (string * string)) (m : mesh) (ops : list op) : list Z :=
  match init m with Some w => run_trace c consts w ops | None => [(-1)%Z] end.

(* ---- every table is terminated: in every block of every method, a table write (write_matrix_as_table puts no newline after
   its last row) is IMMEDIATELY followed, in the same block, by a write of pure whitespace (the newline), so that the last number
   of the table is never glued to what comes next -- in particular not to the next table of an enclosing loop *)
Fixpoint terminated (fuel : nat) (l : list stmt) : bool :=
  match fuel with
  | O => false
  | S f =>
    match l with
    | [] => true
    | STable :: SWrite [] :: r => terminated f r
    | STable :: _ => false
    | SFor _ body :: r => terminated f body && terminated f r
    | SIf _ a b :: r => terminated f a && terminated f b && terminated f r
    | _ :: r => terminated f r
    end
  end.
Definition tables_terminated (c : cfg) : bool := forallb (fun m => terminated 100 (snd m)) c.
Fixpoint count_tables (fuel : nat) (l : list stmt) : nat :=
  match fuel with
  | O => 0
  | S f => list_sum (map (fun s => match s with STable => 1 | SFor _ b => count_tables f b
                                               | SIf _ a b => count_tables f a + count_tables f b | _ => 0 end) l)
  end.
