(* Vectors as lists over a Num T: the operations the solver code performs on 1-D arrays (shared by C06, C01, C05 models).
   Executable definitions only. *)
From Coq Require Import ZArith QArith List.
From OV.base Require Import Num.
Import ListNotations.

Section Vec.
  Context {T : Type} {NT : Num T}.
  Local Notation vec := (list T).
  Fixpoint vmap2 (f : T -> T -> T) (a b : vec) : vec :=
    match a, b with x :: a', y :: b' => f x y :: vmap2 f a' b' | _, _ => [] end.
  Definition vadd (a b : vec) : vec := vmap2 nadd a b.
  Definition vsub (a b : vec) : vec := vmap2 nsub a b.
  Definition vmul (a b : vec) : vec := vmap2 nmul a b.
  Definition vdiv (a b : vec) : vec := vmap2 ndiv a b.
  Definition vscale (k : T) (a : vec) : vec := map (nmul k) a.      (* k * a *)
  Definition vneg (a : vec) : vec := map nopp a.                    (* -a *)
  Definition vaxpy (z : vec) (k : T) (d : vec) : vec := vadd z (vscale k d).   (* z + k*d *)
  Definition vzero_like (a : vec) : vec := map (fun _ => nzero) a.  (* 0.*a *)
  Definition vdot (a b : vec) : T := ndot a b.                      (* a @ b *)
  Definition vnorm (a : vec) : T := nsqrt (ndot a a).               (* np.linalg.norm(a) *)
  Definition vshift (k : T) (a : vec) : vec := map (fun x => nadd x k) a.      (* a + k *)
  (* matrices as lists of rows *)
  Definition matvec (m : list vec) (x : vec) : vec := map (fun row => ndot row x) m.
  Fixpoint transpose_n (n : nat) (m : list vec) : list vec :=     (* n = number of columns *)
    match n with O => [] | S k => map (fun row => hd nzero row) m :: transpose_n k (map (@tl T) m) end.
End Vec.
