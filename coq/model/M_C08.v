(* C08: executable glue around the kernels regenerated from /repo (no proofs here).
   * a 3x3 matrix record with the usual algebra (so that theorems can be stated about matrices although the
     generated kernels take 9 scalars),
   * adapters between records and the 9-scalar calling convention of the generated kernels,
   * the energy of every material model / strain-measure option as a function of the displacement gradient:
     these are the two-line closures of the `create_material_model_functions` factories
     (strain = _strain(dispGrad); return energy(strain, props)), written with the GENERATED strain and energy kernels.
   Un-modelled spectral tensor functions are parameters lss : mat -> mat (log_sqrt_symm), pw : mat -> T -> mat (pow_symm). *)
From Coq Require Import ZArith QArith List.
From OV.base Require Import Num.
From OV.gen Require Import Gen_TensorMath Gen_LinearElastic Gen_Neohookean Gen_Gent Gen_J2Elastic
  Gen_HyperViscoelastic Gen_MultiBranchHyperViscoelastic Gen_PhaseFieldThreshold.

Section M.
  Context {T : Type} {NT : Num T}.

  Record mat : Type := mk { m00 : T; m01 : T; m02 : T; m10 : T; m11 : T; m12 : T; m20 : T; m21 : T; m22 : T }.
  Definition t9 : Type := (T * T * T * T * T * T * T * T * T)%type.
  Definition of9 (x : t9) : mat := let '(a, b, c, d, e, f, g, h, i) := x in mk a b c d e f g h i.
  Definition to9 (A : mat) : t9 := (m00 A, m01 A, m02 A, m10 A, m11 A, m12 A, m20 A, m21 A, m22 A).
  Definition ap9 {X : Type} (f : T -> T -> T -> T -> T -> T -> T -> T -> T -> X) (A : mat) : X :=
    f (m00 A) (m01 A) (m02 A) (m10 A) (m11 A) (m12 A) (m20 A) (m21 A) (m22 A).
  Definition lift1 (f : mat -> mat) : T -> T -> T -> T -> T -> T -> T -> T -> T -> t9 :=
    fun a b c d e f' g h i => to9 (f (mk a b c d e f' g h i)).
  Definition lift2 (f : mat -> T -> mat) : T -> T -> T -> T -> T -> T -> T -> T -> T -> T -> t9 :=
    fun a b c d e f' g h i m => to9 (f (mk a b c d e f' g h i) m).

  Definition mid : mat := mk nunit nzero nzero nzero nunit nzero nzero nzero nunit.
  Definition mzero : mat := mk nzero nzero nzero nzero nzero nzero nzero nzero nzero.
  Definition mtr (A : mat) : mat := mk (m00 A) (m10 A) (m20 A) (m01 A) (m11 A) (m21 A) (m02 A) (m12 A) (m22 A).
  Definition map2 (f : T -> T -> T) (A B : mat) : mat :=
    mk (f (m00 A) (m00 B)) (f (m01 A) (m01 B)) (f (m02 A) (m02 B)) (f (m10 A) (m10 B)) (f (m11 A) (m11 B)) (f (m12 A) (m12 B))
       (f (m20 A) (m20 B)) (f (m21 A) (m21 B)) (f (m22 A) (m22 B)).
  Definition madd := map2 nadd.
  Definition msub := map2 nsub.
  Definition mscal (s : T) (A : mat) : mat :=
    mk (nmul s (m00 A)) (nmul s (m01 A)) (nmul s (m02 A)) (nmul s (m10 A)) (nmul s (m11 A)) (nmul s (m12 A))
       (nmul s (m20 A)) (nmul s (m21 A)) (nmul s (m22 A)).
  Definition mmul (A B : mat) : mat :=
    mk (nadd (nadd (nmul (m00 A) (m00 B)) (nmul (m01 A) (m10 B))) (nmul (m02 A) (m20 B)))
       (nadd (nadd (nmul (m00 A) (m01 B)) (nmul (m01 A) (m11 B))) (nmul (m02 A) (m21 B)))
       (nadd (nadd (nmul (m00 A) (m02 B)) (nmul (m01 A) (m12 B))) (nmul (m02 A) (m22 B)))
       (nadd (nadd (nmul (m10 A) (m00 B)) (nmul (m11 A) (m10 B))) (nmul (m12 A) (m20 B)))
       (nadd (nadd (nmul (m10 A) (m01 B)) (nmul (m11 A) (m11 B))) (nmul (m12 A) (m21 B)))
       (nadd (nadd (nmul (m10 A) (m02 B)) (nmul (m11 A) (m12 B))) (nmul (m12 A) (m22 B)))
       (nadd (nadd (nmul (m20 A) (m00 B)) (nmul (m21 A) (m10 B))) (nmul (m22 A) (m20 B)))
       (nadd (nadd (nmul (m20 A) (m01 B)) (nmul (m21 A) (m11 B))) (nmul (m22 A) (m21 B)))
       (nadd (nadd (nmul (m20 A) (m02 B)) (nmul (m21 A) (m12 B))) (nmul (m22 A) (m22 B))).
  Definition mtrace (A : mat) : T := nadd (nadd (m00 A) (m11 A)) (m22 A).
  Definition mddot (A B : mat) : T :=
    nadd (nadd (nadd (nadd (nadd (nadd (nadd (nadd (nmul (m00 A) (m00 B)) (nmul (m01 A) (m01 B))) (nmul (m02 A) (m02 B)))
      (nmul (m10 A) (m10 B))) (nmul (m11 A) (m11 B))) (nmul (m12 A) (m12 B))) (nmul (m20 A) (m20 B))) (nmul (m21 A) (m21 B)))
      (nmul (m22 A) (m22 B)).
  Definition mdet (A : mat) : T :=
    nadd (nadd (nmul (m00 A) (nsub (nmul (m11 A) (m22 A)) (nmul (m12 A) (m21 A))))
               (nmul (m01 A) (nsub (nmul (m12 A) (m20 A)) (nmul (m10 A) (m22 A)))))
         (nmul (m02 A) (nsub (nmul (m10 A) (m21 A)) (nmul (m11 A) (m20 A)))).

  (* superposed rigid rotation Q on the deformation (F -> Q F) and rotation of the reference configuration (F -> F Q),
     expressed on the displacement gradient H = F - I, which is what compute_energy_density receives *)
  Definition defgrad (H : mat) : mat := madd H mid.
  Definition rotL (Q H : mat) : mat := msub (mmul Q (defgrad H)) mid.
  Definition rotR (Q H : mat) : mat := msub (mmul (defgrad H) Q) mid.

  Definition p3 : Type := (T * T * T)%type.
  Definition p4 : Type := (T * T * T * T)%type.
  Definition p5 : Type := (T * T * T * T * T)%type.
  Definition p6 : Type := (T * T * T * T * T * T)%type.
  Definition p8 : Type := (T * T * T * T * T * T * T * T)%type.

  (* ---- LinearElastic.create_material_model_functions.strain_energy, one per 'strain measure' option ---- *)
  Definition W_le (p : p4) (E : mat) : T :=
    let '(a, b, c, d) := p in ap9 (@_linear_elastic_energy_density T NT) E a b c d.
  Definition strain_linear (H : mat) : mat := of9 (ap9 (@linear_strain T NT) H).
  Definition strain_gl (H : mat) : mat := of9 (ap9 (@green_lagrange_strain T NT) H).
  Definition strain_log (lss : mat -> mat) (H : mat) : mat := of9 (ap9 (@log_strain T NT (lift1 lss)) H).
  Definition E_le_linear (p : p4) (H : mat) : T := W_le p (strain_linear H).
  Definition E_le_gl (p : p4) (H : mat) : T := W_le p (strain_gl H).
  Definition E_le_log (lss : mat -> mat) (p : p4) (H : mat) : T := W_le p (strain_log lss H).

  (* ---- Neohookean (both versions), Gent ---- *)
  Definition E_neo_coupled (p : p5) (H : mat) : T :=
    let '(a, b, c, d, e) := p in ap9 (@_neohookean_3D_energy_density T NT) H a b c d e.
  Definition E_neo_adagio (p : p5) (H : mat) : T :=
    let '(a, b, c, d, e) := p in ap9 (@_adagio_neohookean T NT) H a b c d e.
  Definition E_gent (p : p3) (H : mat) : T :=
    let '(a, b, c) := p in ap9 (@_gent_3D_energy_density T NT) H a b c.

  (* ---- J2Plastic in the elastic regime (state increment = 0): energy_density_function =
          elastic_free_energy(compute_elastic_strain(dispGrad, state), props) [+ hardening energy(eqps, eqps)];
          state = (eqps, Fp or plastic strain) ---- *)
  Definition W_j2 (p : p5) (E : mat) : T :=
    let '(a, b, c, d, e) := p in ap9 (@j2_elastic_free_energy T NT) E a b c d e.
  Definition j2_strain_log (lss : mat -> mat) (eqps : T) (Fp H : mat) : mat :=
    of9 (ap9 (ap9 (@compute_elastic_logarithmic_strain T NT (lift1 lss)) H eqps) Fp).
  Definition j2_strain_linear (eqps : T) (Ep H : mat) : mat :=
    of9 (ap9 (ap9 (@compute_elastic_linear_strain T NT) H eqps) Ep).
  Definition j2_strain_seth_hill (pw : mat -> T -> mat) (eqps : T) (Ep H : mat) : mat :=
    of9 (ap9 (ap9 (@compute_elastic_seth_hill_strain T NT (lift2 pw)) H eqps) Ep).
  Definition E_j2_log (lss : mat -> mat) (p : p5) (eqps : T) (Fp H : mat) : T := W_j2 p (j2_strain_log lss eqps Fp H).
  Definition E_j2_linear (p : p5) (eqps : T) (Ep H : mat) : T := W_j2 p (j2_strain_linear eqps Ep H).
  Definition E_j2_seth_hill (pw : mat -> T -> mat) (p : p5) (eqps : T) (Ep H : mat) : T :=
    W_j2 p (j2_strain_seth_hill pw eqps Ep H).

  (* ---- HyperViscoelastic: the generated _energy_density itself ---- *)
  Definition E_hv (lss : mat -> mat) (p : p4) (Fv : mat) (dt : T) (H : mat) : T :=
    let '(a, b, c, d) := p in ap9 (ap9 (@hv_energy_density T NT (lift1 lss)) H) Fv dt a b c d.
  Definition E_hv_eq (p : p4) (H : mat) : T :=
    let '(a, b, c, d) := p in ap9 (@_eq_strain_energy T NT) H a b c d.

  (* ---- MultiBranchHyperViscoelastic._energy_density: the python loop over the 3 Prony branches, unrolled by hand,
          each branch written with the generated per-branch kernels (prop_id = 2, 4, 6) ---- *)
  Definition mb_branch (inc : T -> T -> T -> T -> T -> T -> T -> T -> T -> T -> T -> T -> T -> T -> T -> T -> T -> T -> t9)
                       (neq dis : T -> T -> T -> T -> T -> T -> T -> T -> T -> T -> T -> T -> T -> T -> T -> T -> T -> T)
                       (lss : mat -> mat) (p : p8) (Fv : mat) (dt : T) (H : mat) : T * T :=
    let '(a, b, c, d, e, f, g, h) := p in
    let Ee_trial := of9 (ap9 (ap9 (@mb_compute_elastic_logarithmic_strain T NT (lift1 lss)) H) Fv) in
    let dEv := of9 (ap9 inc Ee_trial dt a b c d e f g h) in
    let Ee := msub Ee_trial dEv in
    let Dv := mk (ndiv (m00 dEv) dt) (ndiv (m01 dEv) dt) (ndiv (m02 dEv) dt) (ndiv (m10 dEv) dt) (ndiv (m11 dEv) dt)
                 (ndiv (m12 dEv) dt) (ndiv (m20 dEv) dt) (ndiv (m21 dEv) dt) (ndiv (m22 dEv) dt) in
    (ap9 neq Ee a b c d e f g h, ap9 dis Dv a b c d e f g h).
  Definition E_mb_eq (p : p8) (H : mat) : T :=
    let '(a, b, c, d, e, f, g, h) := p in ap9 (@mb_eq_strain_energy T NT) H a b c d e f g h.
  Definition E_mb (lss : mat -> mat) (p : p8) (Fv1 Fv2 Fv3 : mat) (dt : T) (H : mat) : T :=
    let W_eq := E_mb_eq p H in
    let '(w1, s1) := mb_branch (@_compute_state_increment_b1 T NT) (@_neq_strain_energy_b1 T NT) (@_dissipation_potential_b1 T NT) lss p Fv1 dt H in
    let '(w2, s2) := mb_branch (@_compute_state_increment_b2 T NT) (@_neq_strain_energy_b2 T NT) (@_dissipation_potential_b2 T NT) lss p Fv2 dt H in
    let '(w3, s3) := mb_branch (@_compute_state_increment_b3 T NT) (@_neq_strain_energy_b3 T NT) (@_dissipation_potential_b3 T NT) lss p Fv3 dt H in
    let W_neq := nadd (nadd (nadd nzero w1) w2) w3 in
    let Psi := nadd (nadd (nadd nzero s1) s2) s3 in
    nadd (nadd W_eq W_neq) (nmul dt Psi).

  (* ---- PhaseFieldThreshold.compute_energy_density, both kinematics options ---- *)
  Definition W_pf (p : p6) (phase g0 g1 g2 : T) (E : mat) : T :=
    let '(a, b, c, d, e, f) := p in ap9 (@pf_energy_density T NT) E phase g0 g1 g2 a b c d e f.
  Definition pf_strain_log (lss : mat -> mat) (H : mat) : mat := of9 (ap9 (@pf_compute_logarithmic_strain T NT (lift1 lss)) H).
  Definition pf_strain_linear (H : mat) : mat := of9 (ap9 (@pf_compute_linear_strain T NT) H).
  Definition E_pf_log (lss : mat -> mat) (p : p6) (phase g0 g1 g2 : T) (H : mat) : T := W_pf p phase g0 g1 g2 (pf_strain_log lss H).
  Definition E_pf_linear (p : p6) (phase g0 g1 g2 : T) (H : mat) : T := W_pf p phase g0 g1 g2 (pf_strain_linear H).
End M.

Arguments mat T : clear implicits.
