(* C07: denotation of a reverse-rule descriptor (model/M_C07_Refs.v: revrule, restore_kind, vjpclosure -- values regenerated from the AST of
   inverse/NonlinearSolve.py and Objective.py) over an abstract structure: V the unknowns, P the carrier of one parameter slot, Params = 6 optional
   slots, self.grad_x, the JAX primitives vjp / jvp and the CG sub-solver as black boxes.  Every flag of the descriptor selects between what the
   repaired source does and an arbitrary other value, so a theorem about the denotation depends on every flag.  Definitions only. *)
From Coq Require Import Reals List Bool Arith String.
From OV.model Require Import M_C07_Refs M_C19_CFG.
From OV.gen Require Import CFG_drivers.
Import ListNotations.

Section RuleSem.
  Variables V P : Type.
  Definition Par : Type := list (option P).            (* Objective.Params: six slots, None = absent *)
  Variable gradx : V -> Par -> V.                       (* self.grad_x = jit(grad(f, 0)) *)
  Variable vjp_at : (P -> V) -> P -> V -> P.            (* vjp(g, q)[1](w)[0] *)
  Variable jvp_at : (V -> V) -> V -> V -> V.            (* jvp(g, (x,), (t,))[1] *)
  Variable cg : V -> V -> (V -> V) -> (V -> V) -> option R -> V * V.
        (* EquationSolver.solve_trust_region_minimization(x0, r, hess_vec_func, precond, trSize, settings): components 0 and 1; radius None = np.inf *)
  Variable vzero : V.
  Variable precond : V -> V.                            (* objective.apply_precond, in whatever state the factorisation is *)

  (* Objective.param_index_update on the regenerated slot table (gen/CFG_drivers.v); the Python fall-through (index > 5) is kept as identity
     and excluded by guards in the theorems *)
  Definition upd (p : Par) (k : nat) (q : P) : Par :=
    match piu_apply piu_rows p k (Some q) None with Some p' => p' | None => p end.

  (* objective.hessian_vec(x, t) while self.p = p *)
  Definition hess_op (p : Par) (x : V) : V -> V := fun t => jvp_at (fun z => gradx z p) x t.

  (* objective.vec_jacobian_p<k>(x, w)[0] while self.p = p.  None: the method / closure is not of the recognised shape, or p[primal slot] is None *)
  Definition closure_sem (c : vjpclosure) (p : Par) (x w : V) : option P :=
    if vc_closure_defined c && vc_args_x_selfp_v c && vc_is_vjp c && vc_fun_is_grad_x_of_update c && vc_primal_is_p_slot c && vc_cot_is_third c
    then match nth (vc_primal_slot c) p None with
         | Some q0 => Some (vjp_at (fun q => gradx x (upd p (vc_update_slot c) q)) q0 w)
         | None => None
         end
    else None.

  (* what a reverse rule sees: objective.p as left by whatever ran last (e_pcur), the residual data saved by the forward rule (the solution and
     either the whole Params or the design parameters), the incoming cotangent; e_j*: arbitrary other values standing for "something else" *)
  Record renv := { e_pcur : Par; e_psaved : Par; e_dsaved : P; e_Uu : V; e_v : V;
                   e_jV : V; e_jop : V -> V; e_jpre : V -> V; e_rad : R }.

  Definition p_used (rk : restore_kind) (e : renv) : Par :=
    match rk with
    | RestoreSaved => e_psaved e
    | RestoreSlot k => upd (e_pcur e) k (e_dsaved e)
    | RestoreNone => e_pcur e
    end.

  Definition rule_lam (r : revrule) (rk : restore_kind) (hv_ok : bool) (e : renv) : V :=
    let p := p_used rk e in
    let op := if r_adj_op_hessian_at_solution r && hv_ok then hess_op p (e_Uu e) else e_jop e in
    let x0 := if r_adj_x0_zero r then vzero else e_jV e in
    let rhs := if r_adj_rhs_cotangent r then e_v e else e_jV e in
    let pre := if r_adj_precond r then precond else e_jpre e in
    let rad := if r_adj_radius_inf r then None else Some (e_rad e) in
    let res := cg x0 rhs op pre rad in
    if r_lam_result0 r then fst res else snd res.

  (* the guard `p[g] != None` is evaluated on the SAVED parameters; 99 = no guard *)
  Definition guard_present (e : renv) (g : nat) : bool :=
    if Nat.eqb g 99 then true else match nth g (e_psaved e) None with Some _ => true | None => false end.

  Inductive cot := CotNone | CotVal (c : P) | CotStuck.   (* Python None / a cotangent / not of the recognised shape or an exception *)

  Definition slot_sem (cls : list vjpclosure) (r : revrule) (rk : restore_kind) (hv_ok : bool) (e : renv) (s : slotdesc) : cot :=
    match s with
    | SlotNone => CotNone
    | SlotOtherExpr => CotStuck
    | SlotVJP k g =>
        if guard_present e g then
          match find_closure cls k with
          | Some c => match closure_sem c (p_used rk e) (e_Uu e) (rule_lam r rk hv_ok e) with Some x => CotVal x | None => CotStuck end
          | None => CotStuck
          end
        else CotNone
    end.

  (* (cotangent of the initial guess, cotangents in the order of the returned tuple / Params) *)
  Definition rule_out (cls : list vjpclosure) (r : revrule) (rk : restore_kind) (hv_ok : bool) (e : renv) : V * list cot :=
    (if r_guess_cotangent_zero r then vzero else e_jV e, map (slot_sem cls r rk hv_ok e) (r_slots r)).
End RuleSem.
