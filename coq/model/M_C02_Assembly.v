(* C02: executable model of optimism/SparseMatrixAssembler.py:assemble_sparse_stiffness_matrix on top of the DofManager
   model (M_C14_Dof.v), and of the per-block scatter loops of optimism/Mechanics.py:_compute_*_multi_block.
   Definitions only.  Values live in an arbitrary type V with a zero and an addition (Z in the correspondence, R in theorems). *)
From Coq Require Import ZArith List Bool Arith.
From OV.model Require Import M_C14_Dof.
Import ListNotations.

Section Asm.
  Context {V : Type} (vzero : V) (vadd : V -> V -> V).
  Variable isBc : list bool.
  Variable dim : nat.

  (* kValues.reshape((nElements, nd, nd))[dofManager.hessian_bc_mask]
     kvals : one flat row-major list of nd*nd numbers per element (kValues[e].reshape(nd, nd).ravel()) *)
  Definition masked_values (conns : list (list nat)) (kvals : list (list V)) : list V :=
    mask_select (hessian_bc_mask isBc dim conns) (concat kvals).

  (* the (row, col, value) triples handed to coo_matrix *)
  Definition coo_triples (conns : list (list nat)) (kvals : list (list V)) : list ((Z * Z) * V) :=
    combine (combine (HessRowCoords isBc dim conns) (HessColCoords isBc dim conns)) (masked_values conns kvals).

  (* coo_matrix((vals, (rows, cols)), shape=(n, n)).tocsc().toarray()[i, j] : duplicate coordinates are summed *)
  Definition dense (t : list ((Z * Z) * V)) (i j : Z) : V :=
    fold_right (fun rcv acc => if (fst (fst rcv) =? i)%Z && (snd (fst rcv) =? j)%Z then vadd (snd rcv) acc else acc) vzero t.
  Definition dense_matrix (n : nat) (t : list ((Z * Z) * V)) : list (list V) :=
    map (fun i => map (fun j => dense t (Z.of_nat i) (Z.of_nat j)) (seq 0 n)) (seq 0 n).

  (* ----- specification side ----- *)
  (* every entry of every element block: (element nodes, (a, b), K_e[a, b]) in row-major (e, a, b) order *)
  Definition all_entries (conns : list (list nat)) (kvals : list (list V)) : list ((list nat * (nat * nat)) * V) :=
    flat_map (fun ek => map (fun pv => ((fst ek, fst pv), snd pv)) (combine (el_pairs dim (fst ek)) (snd ek)))
             (combine conns kvals).
  (* sum of the values of the entries satisfying P *)
  Definition sum_where {X} (P : X -> bool) (l : list (X * V)) : V :=
    fold_right (fun xv acc => if P (fst xv) then vadd (snd xv) acc else acc) vzero l.
  (* block entry (a, b) of element `en` goes to matrix position (i, j) of the reduced matrix *)
  Definition lands_at (i j : Z) (x : list nat * (nat * nat)) : bool :=
    el_both_unknown isBc dim (fst x) (snd x)
    && (fst (el_coord isBc dim (fst x) (snd x)) =? i)%Z && (snd (el_coord isBc dim (fst x) (snd x)) =? j)%Z.
  (* the un-reduced ("global scatter") matrix, TRANSPOSED as the assembler does: entry (a, b) adds to (dof b, dof a) *)
  Definition scatters_to (di dj : nat) (x : list nat * (nat * nat)) : bool :=
    (nth (snd (snd x)) (el_dofs dim (fst x)) 0 =? di) && (nth (fst (snd x)) (el_dofs dim (fst x)) 0 =? dj).
  (* ... and the orientation one would write on paper: entry (a, b) adds to (dof a, dof b) *)
  Definition scatters_to_straight (di dj : nat) (x : list nat * (nat * nat)) : bool :=
    (nth (fst (snd x)) (el_dofs dim (fst x)) 0 =? di) && (nth (snd (snd x)) (el_dofs dim (fst x)) 0 =? dj).
End Asm.

(* ---------- per-block loops of Mechanics._compute_*_multi_block ---------- *)
Section Blocks.
  Context {V : Type} (vzero : V) (vadd : V -> V -> V).
  (* blockEnergy = dot(vals.ravel(), vols[block].ravel()) = sum over the block's elements of the element energy *)
  Definition block_energy (ee : nat -> V) (elemIds : list nat) : V := fold_right vadd vzero (map ee elemIds).
  (* energy = 0.0; for block: energy += blockEnergy *)
  Definition multi_block_energy (ee : nat -> V) (blocks : list (list nat)) : V :=
    fold_left (fun acc ids => vadd acc (block_energy ee ids)) blocks vzero.
  (* the single-block path integrates over slice(None) *)
  Definition single_block_energy (ee : nat -> V) (nElements : nat) : V := block_energy ee (seq 0 nElements).

  (* arr = base; for block: arr = arr.at[elemIds].set(f applied to the block's elements) *)
  Definition multi_block_scatter {W} (f : nat -> W) (blocks : list (list nat)) (base : list W) : list W :=
    fold_left (fun acc ids => scatter acc ids (map f ids)) blocks base.
End Blocks.

(* ---------- FunctionSpace.evaluate_on_block / integrate_over_block: gather semantics of the block index ----------
   evaluate_on_block gathers EVERY per-element array (states, shapes, shapeGrads, vols, conns) with the same index
   `block` and maps the element kernel over the gathered rows; integrate_over_block contracts the flattened result with
   functionSpace.vols[block] flattened.  E is one element's row of all those arrays. *)
Section Gather.
  Context {V : Type} (vzero : V) (vadd vmul : V -> V -> V).
  Context {E : Type} (edef : E).
  Definition gather (elems : list E) (block : list nat) : list E := map (fun i => nth i elems edef) block.
  Definition evaluate_on_block (kernel : E -> list V) (elems : list E) (block : list nat) : list (list V) :=
    map kernel (gather elems block).
  Definition vdot (a c : list V) : V := fold_right vadd vzero (map (fun p => vmul (fst p) (snd p)) (combine a c)).
  Definition integrate_over_block (kernel vols : E -> list V) (elems : list E) (block : list nat) : V :=
    vdot (concat (evaluate_on_block kernel elems block)) (concat (map vols (gather elems block))).
  (* energy of one element: its kernel values against its own quadrature-point volumes *)
  Definition element_energy (kernel vols : E -> list V) (elems : list E) (i : nat) : V :=
    vdot (kernel (nth i elems edef)) (vols (nth i elems edef)).
End Gather.

(* ---------- one correspondence case (integer blocks): COO triples and the dense matrix ---------- *)
Definition run_asm_case (nNodes dim : Z) (ebcs : list (list Z * Z)) (conns : list (list Z)) (kvals : list (list Z)) : list Z :=
  let nN := Z.to_nat nNodes in
  let dm := Z.to_nat dim in
  let isBc := mk_isBc nN dm (map (fun e => (nl (fst e), Z.to_nat (snd e))) ebcs) in
  let cs := map nl conns in
  let t := coo_triples isBc dm cs kvals in
  pack [ map (fun x => fst (fst x)) t; map (fun x => snd (fst x)) t; map snd t;
         concat (dense_matrix 0%Z Z.add (get_unknown_size isBc) t) ].

Definition run_scatter_case (base : list Z) (blocks : list (list Z)) (vals : list Z) : list Z :=
  multi_block_scatter (fun e => nth e vals 0%Z) (map nl blocks) base.

(* gather correspondence: per element the kernel values and the volumes at its quadrature points (integers) *)
Definition run_gather_case (kv vl : list (list Z)) (block : list Z) : list Z :=
  let elems := combine kv vl in
  let b := nl block in
  pack [ concat (evaluate_on_block ([], []) fst elems b);
         [integrate_over_block 0%Z Z.add Z.mul ([], []) fst snd elems b] ].
