#!/bin/sh
# Build the framework from files on disk only (offline): regenerate the Coq models from /repo, build every .vo.
set -e
cd "$(dirname "$0")"
export PYTHONHASHSEED=0 PYTHONDONTWRITEBYTECODE=1
mkdir -p coq/gen coq/run evidence replays
/venv/bin/python - <<'PY'
import sys
sys.path.insert(0, 'tools')
from vlib import common
res = common.regen()
bad = {k: v[1] for k, v in res.items() if not v[0]}
print('regenerated', len(res), 'model files;', 'failed:', bad)
PY
cd coq
timeout 3000 make -j16 -k 2>&1 | grep -v "^Axioms:\|^  \|^[A-Z][A-Za-z_]*\.[A-Za-z_.]* *$\|^[A-Za-z_.]* :\|ambiguous-paths\|New coercion path\|^Warning:$\|is not definitionally an identity" | tail -40
cd ..
PYTHONHASHSEED=0 PYTHONPATH=/repo tools/selftest/run.py 2>&1 | grep -v "^WARNING" | tail -3
echo "setup done"
